"""C14 Namespace caches are invisible: lock discipline and write discipline (the schedule-independent clauses)."""
from rules import entries, locks, panic, loops


def check(ctx):
    prog, rep = ctx.prog, ctx.rep
    lr = locks.LockRule(ctx)
    rep.floor("DashMap caches", len([m for m in lr.maps if m != "?"]), 2)
    n_sites, holders = lr.check(rep)
    rep.floor("guard-creating call sites", n_sites, 9)
    rep.floor("functions holding a guard", holders, 6)
    from rules import determinism
    determinism.check(ctx, rep)
    determinism.check_no_hidden_state(ctx, rep)
    rep.analysed["caches"] = lr.maps
    rep.analysed["functions_returning_guard"] = sorted(lr.returns_guard.values())
    E = [b.id for b in prog.bodies.values() if b.file.endswith(("defs/namespace.rs", "defs/reflection.rs")) and b.rec.get("vis") == "Public"]
    rep.floor("public namespace / reflection queries", len(E), 25)
    pr = panic.PanicRule(ctx, parsed_timestamps_only=True)
    reach, nsites = pr.run(E, rep)
    rep.assume("A4: dashmap 6.1 locking is as documented (per-shard RwLock; a guard holds its shard lock until dropped; get/contains_key/insert take it)")
    rep.note("Not decided: that answers are equal as values regardless of history (cached vectors come out of HashSet iteration; equality as sets is a runtime fact).")
    return ("R-LOCK over every function that touches the two DashMap caches: K1 no call that can reach an access of map M while a guard of M is "
            "live (variant-aware liveness of Option<Ref>; interprocedural 'touches' sets over the call graph; guards returned by supertypes_of/"
            "inheritance are followed into their callers), K2 lock-order graph acyclic, K3 only get/contains_key/insert are ever invoked on the "
            "caches (nothing hands out &mut to cached storage, nothing removes), K4 inserted values are moved in, K5 each cache is touched only by its own get-or-compute accessor (no other function can observe cache state, a necessary condition of history independence), R-DET no position-dependent consumer (find, first, nth, min/max ...) is applied to the iteration of a randomly seeded HashMap / HashSet, K6 no public function returns a type containing a shard guard (a caller holding one across its next query blocks on itself; today two do - known finding F28); %d guard sites in %d functions; "
            "plus R-PANIC over %d bodies reachable from %d public namespace queries. The argument is schedule-independent." % (n_sites, holders, len(reach), len(E)))


MANIFEST = {
    "technique": "static analysis: guard-liveness dataflow on MIR + call-graph 'touches' sets (lock discipline), method whitelist, guard-escape rule on public signatures, order-sensitive consumers of hash iteration, no thread-local state, panic-site discharge",
    "level": "Decides 'never deadlocks, never panics, never returns a partially built answer' for all schedules: self-deadlock and lock-order "
    "cycles are the only ways a DashMap user deadlocks, and both are excluded structurally on every path of every function that holds a guard; "
    "cached vectors are inserted complete and never mutated or removed (K3/K4), which also discharges the two .expect(\"Cached value\") sites. "
    "K6 reports the two public functions that return a live shard guard (known finding F28: a caller holding one across its next query blocks on itself); R-DET excludes answers that depend on the iteration order of a randomly seeded hash container. Tests run one thread and one history; this argument does not depend on the schedule.",
    "note": "Partial claim: value-equality of answers across histories is a runtime fact and is not decided. Trusted: A4 (dashmap's documented locking), rustc MIR.",
}
