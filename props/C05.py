"""C05 Hayson JSON conforms to the Project Haystack JSON encoding: tables and member-order independence."""
from rules import hayson


def check(ctx):
    rep = ctx.rep
    from rules import tz as _tzz
    nz = _tzz.check_zone_names(ctx, rep)
    rep.floor("zone-name table obligations (T-ZONES)", nz, 2)
    from rules import tz as _tzs
    nsf = _tzs.check_strftime(ctx, rep)
    _tzs.check_date_text(ctx, rep)
    rep.floor("time-of-day text writers", nsf, 3)
    from rules import hayson as _hc
    ncc = _hc.check_casts(ctx, rep)
    rep.floor("float casts / serialize_f64 sites in the Hayson writer", ncc, 2)
    from rules import tz as _tz
    _tz.check_utc_guard(ctx, rep)
    ntzr = _tz.check(ctx, rep)
    rep.floor("zone-mapping call sites (R-TZ)", ntzr, 10)
    hayson.check_member_loop(ctx, rep)
    ntd = hayson.check_typed_deserializers(ctx, rep)
    hayson.check_text_verbatim(ctx, rep)
    nmg = hayson.check_member_guards(ctx, rep)
    hayson.check_nonfinite_spellings(ctx, rep)
    noc = hayson.check_optional_members_complete(ctx, rep)
    rep.floor("optional Hayson members tied to an Option field", noc, 6)
    nrb = hayson.check_members_read_before_ok(ctx, rep)
    rep.floor("members of tagged-object readers (must-pass before Ok)", nrb, 17)
    hayson.check_nothing_dropped(ctx, rep, "decode")
    hayson.check_nothing_dropped(ctx, rep, "encode")
    nrf = hayson.check_refusals(ctx, rep)
    rep.floor("tagged-object readers with error paths", nrf, 12)
    rep.floor("Hayson member / element write sites", nmg, 38)
    rep.floor("typed Hayson deserializers (impl Deserialize for <kind>)", ntd, 15)
    nok = hayson.check_owned_keys(ctx, rep)
    rep.floor("MapAccess / SeqAccess requests of the Hayson visitor", nok, 2)
    nic = hayson.check_int_casts(ctx, rep)
    n = hayson.check_tables(ctx, rep, with_spec=True)
    rep.floor("tagged Hayson kinds compared with the specification", n, 13)
    no = hayson.check_order_independence(ctx, rep)
    rep.floor("value-building calls in visit_map checked for loop position", no, 11)
    hayson.check_visitor_methods(ctx, rep)
    rep.assume("A5: spec/hayson.json is a faithful transcription of the Hayson chapter (written offline)")
    rep.note("Not decided: semantic equality of decoded values with what a document denotes; number spellings are serde_json's business (the three numeric visitor methods exist).")
    return ("spec/hayson.json against the extracted tables: for each of the 13 tagged kinds the writer emits exactly the specified members with the "
            "specified JSON types (required ones on every path) and the reader reads every specified member, treating optional ones (dis, unit, tz, "
            "meta) as optional. Member-order independence: in visit_map every call that builds a value from the collected members (parse_* , "
            "make_dict) lies outside the next_entry loop, and inside the loop only the field-less kinds are returned, so the position of \"_kind\" "
            "cannot matter.")


MANIFEST = {
    "technique": "static analysis: extracted writer/reader member tables vs transcribed Hayson specification; CFG loop-position rule for member-order independence; path-condition truth tables and must-pass-through on the reader / writer CFGs (typed deserializers, member guards, optional members complete, members read before Ok, nothing dropped, refusal conditions)",
    "level": "Decides the finite table part of conformance for all kinds, and decides order independence as a property of visit_map's control flow (all "
    "member orders at once, not the few a test tries): no value is built until the member loop has ended. On every path: a member is written iff its field is present (and the encoding-prescribed tests), read before a success is returned, and a document is refused only for absent / wrongly typed members or refused sub-parses.",
    "note": "Partial claim. Trusted: A5 transcription, serde's MapAccess contract, rustc MIR.",
}
