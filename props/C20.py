"""C20 Display names follow the documented precedence and macro substitution."""
from rules import dis, panic, entries


def check(ctx):
    prog, rep = ctx.prog, ctx.rep
    n = dis.check_precedence(ctx, rep)
    rep.floor("display tags on the all-miss path of dict_to_dis", n, 8)
    rxinfo = dis.check_regex(ctx, rep)
    dis.check_lookup_sources(ctx, rep, rxinfo)
    dis.check_localiser_forwarded(ctx, rep)
    npush = dis.check_replacer_pushes(ctx, rep)
    nrk = dis.check_replacer_kinds(ctx, rep)
    rep.floor("replacer kind-dispatch obligations", nrk, 2)
    rep.floor("append sites of the macro replacer", npush, 4)
    E = [b.id for b in prog.bodies.values() if b.short in (
        "haystack::val::dict::dict_to_dis", "haystack::val::dis_macro::dis_macro",
        "<haystack::val::dict::Dict as haystack::val::dict::HaystackDict>::dis", "haystack::val::dict::decode_str_from_value")
        or b.short.endswith("as regex::Replacer>::replace_append")]
    rep.floor("display-name entry points", len(E), 4)
    pr = panic.PanicRule(ctx, parsed_timestamps_only=True)
    reach, nsites = pr.run(E, rep)
    rep.floor("potential panic sites on the display path", nsites, 4)
    rep.assume("A2: regex::Regex::replace_all and Captures behave as documented (group 0 always present)")
    rep.note("Not decided: the substituted text for values of every kind (runs Display).")
    return ("Precedence: the constant keys consulted along the all-miss path of dict_to_dis's CFG are exactly dis, disMacro, disKey, name, def, tag, "
            "navName, id, and from each of the %d hit edges no later display tag can be consulted (existing tests check each tag alone, so a swap "
            "passes them). Regex (regex-syntax / regex-automata on the literal found in the MIR): parses; every match starts with '$' (so text "
            "without '$' is unchanged); the capture groups the replacer reads exist and are the innermost (name) groups; the tag groups accept the "
            "whole Haystack tag language [a-z][a-zA-Z0-9_]* (DFA inclusion). R-PANIC over %d bodies on the display path." % (n, len(reach)))


MANIFEST = {
    "technique": "static analysis: CFG path rule on MIR (lookup order along the all-miss path, no later lookup from hit edges) + regex language analysis (DFA first-byte set, capture structure, language inclusion) + provenance of the text handed to each lookup (capture groups through or_else / map chains) + panic-site discharge",
    "level": "Decides the three clauses of C20 from the source: the precedence order as a property of dict_to_dis's control-flow graph (all paths), "
    "'text without $ is unchanged' and 'every tag name is substitutable' as properties of the regular expression's language (exhaustive over the "
    "language by automata, not over sample strings), and 'substitution never panics' by discharging every panic site on the display path.",
    "note": "Not decided: the display text produced for each value kind. Trusted: regex-syntax/regex-automata as the semantics of the regex crate; rustc MIR.",
}
