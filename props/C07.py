"""C07 Filter evaluation follows the Haystack filter semantics: operator tables, comparison guards, reduction shapes."""
from rules import filters


def check(ctx):
    rep = ctx.rep
    n1 = filters.check_operators(ctx, rep)
    n2 = filters.check_cmp_guards(ctx, rep)
    n3 = filters.check_reductions(ctx, rep)
    n4 = filters.check_path_resolution(ctx, rep)
    filters.check_list_and_presence_semantics(ctx, rep)
    rep.floor("path resolution obligations", n4, 3)
    rep.floor("operator table rows", n1, 24)
    rep.floor("comparison guard obligations", n2, 10)
    rep.floor("reduction shapes classified", n3, 7)
    # an evaluation that does not return gives no answer at all: the evaluator's own loops (ref chasing in `*==`, relationship
    # closure) carry the same termination certificates as in C09, restricted to the evaluation entry points
    from rules import entries, loops
    EE = entries.filter_eval(ctx.prog)
    lr = loops.LoopRule(ctx, eof_only_errors=True)
    nloops = lr.run(EE, rep)
    rep.floor("loops reachable from filter evaluation", nloops, 5)
    rep.floor("visited-set / work-list loops (L3)", lr.counts["L3"], 1)
    # `==` / `!=` are Value's own equality and the ordered operators its order: where a literal kind has hand-written impls, eq and cmp
    # must agree with each other (a Ref whose == also looks at the display name makes `id == @a` false while `id <= @a && id >= @a`
    # holds). The unit clause of Number's order is left open by the property text and is not taken over from C12
    from rules import eqrule

    class _NoUnitOrder:
        def __init__(self, r):
            self._r = r

        def __getattr__(self, k):
            return getattr(self._r, k)

        def bad(self, rule, key, where, msg, detail=None):
            if key.endswith("Number:Q2:cmp-fields-equal-eq-fields"):
                self._r.note("R-EQ Number Q2 (cmp ignores the unit) is outside C07: the statement leaves the order of Numbers with different units open")
                return
            self._r.bad(rule, key, where, msg, detail)

    eqrule.check(ctx, _NoUnitOrder(rep))
    # a filter that is rejected cannot be evaluated: the nesting counter of the parser is a depth, not a budget
    from rules import recursion
    ngb = recursion.check_guard_balance(ctx, rep)
    rep.floor("depth counters", ngb, 2)
    rep.note("Not decided: path resolution through resolvers, list element semantics, how Numbers with different units are ordered - truth values over all filters x records are runtime.")
    return ("Operator tables read from the MIR switch tables compose to the identity on the six operators: lexer spelling -> token -> CmpOp (to_cmp_op) -> "
            "comparator fn item applied by Cmp::eval, and CmpOp -> printed spelling (Display). R-CMPGUARD: every comparator call in Cmp::eval is "
            "dominated by 'resolved value is not Null', and the four ordered operators go through a same-variant (mem::discriminant) test rather than "
            "Value's derived cross-variant order. Reduction shapes: Or = ANY over ands, And = ALL over terms (closures return the child's eval "
            "unnegated), Parens delegates, Has = has_value / Missing = is_null of the resolved path, Grid::filter = first hit of a forward iteration, "
            "filter_all pushes hits in iteration order.")


MANIFEST = {
    "technique": "static analysis: operator / token tables from MIR switch tables and promoted fn-item constants; dominance-checked comparison guards; reduction-shape classifier",
    "level": "Decides the clauses of the filter semantics that are visible in the shape of the evaluator: that each operator spelling reaches its own "
    "comparator, that no comparison can hold on a missing tag or across kinds (both were violated on the pinned tree: 'missing != 5' and "
    "'boolTag < 5' were true), and that or/and/parens/has/missing/grid filtering have the prescribed reduction form. A swapped comparator or a "
    "negated closure compiles and survives most tests.",
    "note": "Partial claim (clauses); value-level results are not decided. Trusted: rustc MIR.",
}
