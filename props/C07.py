"""C07 Filter evaluation follows the Haystack filter semantics: operator tables, comparison guards, reduction shapes."""
from rules import filters


def check(ctx):
    rep = ctx.rep
    n1 = filters.check_operators(ctx, rep)
    n2 = filters.check_cmp_guards(ctx, rep)
    n3 = filters.check_reductions(ctx, rep)
    n4 = filters.check_path_resolution(ctx, rep)
    rep.floor("path resolution obligations", n4, 3)
    rep.floor("operator table rows", n1, 24)
    rep.floor("comparison guard obligations", n2, 10)
    rep.floor("reduction shapes classified", n3, 7)
    # an evaluation that does not return gives no answer at all: the evaluator's own loops (ref chasing in `*==`, relationship
    # closure) carry the same termination certificates as in C09, restricted to the evaluation entry points
    from rules import entries, loops
    EE = entries.filter_eval(ctx.prog)
    lr = loops.LoopRule(ctx, eof_only_errors=True)
    nloops = lr.run(EE, rep)
    rep.floor("loops reachable from filter evaluation", nloops, 5)
    rep.floor("visited-set / work-list loops (L3)", lr.counts["L3"], 1)
    rep.note("Not decided: path resolution through resolvers, list element semantics, how Numbers with different units are ordered - truth values over all filters x records are runtime.")
    return ("Operator tables read from the MIR switch tables compose to the identity on the six operators: lexer spelling -> token -> CmpOp (to_cmp_op) -> "
            "comparator fn item applied by Cmp::eval, and CmpOp -> printed spelling (Display). R-CMPGUARD: every comparator call in Cmp::eval is "
            "dominated by 'resolved value is not Null', and the four ordered operators go through a same-variant (mem::discriminant) test rather than "
            "Value's derived cross-variant order. Reduction shapes: Or = ANY over ands, And = ALL over terms (closures return the child's eval "
            "unnegated), Parens delegates, Has = has_value / Missing = is_null of the resolved path, Grid::filter = first hit of a forward iteration, "
            "filter_all pushes hits in iteration order.")


MANIFEST = {
    "technique": "static analysis: operator / token tables from MIR switch tables and promoted fn-item constants; dominance-checked comparison guards; reduction-shape classifier",
    "level": "Decides the clauses of the filter semantics that are visible in the shape of the evaluator: that each operator spelling reaches its own "
    "comparator, that no comparison can hold on a missing tag or across kinds (both were violated on the pinned tree: 'missing != 5' and "
    "'boolTag < 5' were true), and that or/and/parens/has/missing/grid filtering have the prescribed reduction form. A swapped comparator or a "
    "negated closure compiles and survives most tests.",
    "note": "Partial claim (clauses); value-level results are not decided. Trusted: rustc MIR.",
}
