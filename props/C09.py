"""C09 The filter parser is total; evaluation terminates with any resolver."""
from rules import entries, panic, loops, recursion, eofstores
from vlib import mir


def in_memory_only(ctx, rep):
    """the filter lexer/parser is only ever instantiated over std::io::Cursor<&[u8]> (so read_exact fails only with
    UnexpectedEof): justifies the eof_only_errors mode of the abstract interpreter"""
    n = 0
    for b in ctx.prog.bodies.values():
        for bi, t in b.calls():
            c = mir.callee_of(t)
            if not c:
                continue
            fn = mir.strip_generics(c["fn"])
            if fn in ("haystack::filter::parser::Parser::make", "haystack::filter::lexer::Lexer::make"):
                readers = [x for x in c.get("targs", []) if not x.startswith("'")]
                n += 1
                key = "reader-of:%s:in:%s" % (fn.split("::")[-2], b.short)
                if b.short == "haystack::filter::parser::Parser::make" and readers == ["R"]:
                    rep.ok("R-WHOCALLS", key, b.where(bi), "forwards its own reader parameter")
                elif readers == ["std::io::Cursor<&[u8]>"]:
                    rep.ok("R-WHOCALLS", key, b.where(bi), "in-memory Cursor<&[u8]>")
                else:
                    rep.bad("R-WHOCALLS", "R-WHOCALLS:" + key, b.where(bi), "filter parser built over reader %s: I/O errors other than end-of-input become possible and the lexer ignores them in places (read().ok())" % readers)
    vis = [b for b in ctx.prog.bodies.values() if mir.strip_generics(b.id) in ("haystack::filter::parser::Parser::make", "haystack::filter::lexer::Lexer::make")]
    for b in vis:
        if b.rec.get("vis") == "Public":
            rep.bad("R-WHOCALLS", "R-WHOCALLS:public:" + b.short, b.where(), "constructor is public: callers outside the crate could supply any reader")
        else:
            rep.ok("R-WHOCALLS", "crate-private:" + b.short, b.where(), "not nameable outside the crate (%s)" % b.rec.get("vis", "")[:20])
    return n


def check(ctx):
    prog, rep = ctx.prog, ctx.rep
    EP = entries.filter_parser(prog)
    EE = entries.filter_eval(prog)
    E = sorted(set(EP) | set(EE))
    rep.floor("filter lexer/parser bodies", len(EP), 35)
    rep.floor("filter evaluation entry points", len(EE), 18)
    n = in_memory_only(ctx, rep)
    rep.floor("constructions of the filter lexer/parser", n, 2)
    pr = panic.PanicRule(ctx, parsed_timestamps_only=True)
    reach, nsites = pr.run(E, rep)
    rep.floor("potential panic sites examined", nsites, 40)
    lr = loops.LoopRule(ctx, eof_only_errors=True)
    nloops = lr.run(E, rep)
    rep.analysed["loops"] = nloops
    rep.analysed["loop_certificates"] = dict(lr.counts)
    rep.floor("loops reachable from the filter parser and evaluator", nloops, 30)
    rep.floor("input-driven loops certified by the scanner measure (L2)", lr.counts["L2"], 14)
    rep.floor("visited-set / work-list loops (L3)", lr.counts["L3"], 1)
    eofstores.check(ctx, rep)
    sccs = recursion.check(ctx, E, rep, decoder=True)
    recursion.check_guard_balance(ctx, rep)
    rep.floor("recursive call-graph cycles examined", len(sccs), 4)
    rep.assume("A2: a caller-supplied PathResolver returns (its results are unconstrained, which is why only visited sets certify ref chasing)")
    rep.assume("timestamps in scope are parsed (0000-9999): chrono's local-time accessors panic only within a day of its +-262143-year limits")
    rep.assume("A6: fewer than 2^64 loop iterations per run")
    return ("R-PANIC over %d bodies reachable from the filter parser and evaluator (%d sites); R-LOOP over %d loops: %d by the scanner-measure abstract "
            "interpreter (in-memory reader: checked that the parser is only built over Cursor<&[u8]>), %d finite producers, %d visited-set/work-list "
            "certificates for ref chasing and taxonomy walks; R-REC: parser recursion behind a depth guard of 128, evaluation recursion "
            "structurally descending over the parsed filter." % (len(reach), nsites, nloops, lr.counts["L2"], lr.counts["L1"], lr.counts["L3"]))


MANIFEST = {
    "technique": "static analysis: abstract interpretation of MIR (scanner measure), visited-set/work-list loop certificates, panic-site discharge, recursion certificates",
    "level": "Static totality argument for the filter language: every panic site reachable from Filter::try_from / haystack_filter_parse / Eval / "
    "Filtered / Namespace queries is discharged; every loop is certified (input-driven ones by the scanner-measure abstract interpreter, ref "
    "chasing and def-taxonomy walks only by visited sets, so termination holds for any resolver, including cyclic ones); parser recursion sits "
    "behind a depth guard and evaluation recursion descends structurally. All inputs and all resolvers, not a sample.",
    "note": "Trusted: rustc MIR; std/chrono as documented; caller-supplied resolvers return (A2); reviewed discharge tables with re-validated predicates.",
}
