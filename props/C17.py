"""C17 The C API behaves like the Rust API: error reporting and kind delegation (the statically decidable clauses)."""
from rules import entries, ffi


def check(ctx):
    prog, rep = ctx.prog, ctx.rep
    E = entries.extern_c(prog)
    rep.floor('#[no_mangle] extern "C" functions', len(E), 85)
    nret = ffi.check_errors(ctx, rep)
    rep.floor("return-value definitions classified", nret, 150)
    nk = ffi.check_kind_delegation(ctx, rep)
    nfp = ffi.check_failure_paths(ctx, rep)
    rep.floor("fallible lookups / index guards in the C API", nfp, 20)
    ner = ffi.check_error_register(ctx, rep)
    rep.floor("error register obligations", ner, 2)
    nvd = ffi.check_verb_delegation(ctx, rep)
    rep.floor("exported functions that mutate a collection", nvd, 5)
    ncd = ffi.check_codec_delegation(ctx, rep)
    rep.floor("codec / filter entry points of the C API", ncd, 5)
    nlg = ffi.check_length_getters(ctx, rep)
    rep.floor("length getters of the C API", nlg, 7)
    ffi.check_c_string_conversions(ctx, rep)
    nops = ffi.check_out_param_stores(ctx, rep)
    nfl = ffi.check_named_flags(ctx, rep)
    rep.floor("utc-flag selected accessors", nfl, 2)
    rep.floor("kind-specific C functions (is_/get_/make_)", nk, 60)
    n_sent = sum(1 for o in rep.obligations if o.rule == "R-ERR" and "sentinel-return" in o.key)
    n_arm = sum(1 for o in rep.obligations if o.rule == "R-ERR" and "null-arm" in o.key)
    rep.floor("sentinel returns examined", n_sent, 60)
    rep.floor("null arms examined", n_arm, 80)
    rep.note("Decided: every failure is reported by the documented sentinel plus a recorded error message (all paths); each kind-specific "
             "function works on its own kind. Not decided: value-level agreement of getters with constructors, container semantics, "
             "'leaves all handles unchanged' - these need the call history and the values, which no shape of the code determines.")
    return ("R-ERR over %d extern functions: for every definition of the return value that is the type's failure sentinel (None / null / ERR / "
            "usize::MAX / u32::MAX / NaN) the must-fact 'new_error or update_last_error was called' holds on all paths (%d sentinel returns, "
            "3 documented non-error nulls in a table); N2: %d null arms each reach an error call; kind delegation: %d is_/get_/make_ functions "
            "pair with the like-named Value predicate / variant / constructor." % (len(E), n_sent, n_arm, nk))


MANIFEST = {
    "technique": "static analysis: must-dataflow 'error recorded' on MIR of every extern \"C\" fn + resolved-callee / matched-variant kind table; delegation tables (collection verbs, codec / filter entry points, length getters)",
    "level": "Decides two necessary clauses of C17 on all 91 functions and all their paths: (a) whenever a function returns its failure sentinel an "
    "error message has been recorded (and every null-argument arm records one); (b) haystack_value_is_<k>/get_<k>_*/make_<k>* operate on variant "
    "<K> and no other (a copy-paste slip compiles and the baseline has no C API tests); (c) the codec and filter entry points wrap exactly the Rust API function they are documented to wrap, collection verbs perform that operation of the wrapped collection, and `*_len` is its len(). The behavioural remainder (call histories, value-level "
    "results) is out of reach of static analysis and is not claimed.",
    "note": "Partial claim (clauses). Trusted: rustc MIR; the sentinel table in rules/ffi.py (taken from the documented C API).",
}
