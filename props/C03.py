"""C03 Decoders are total: any input gives a value or an error, never a crash or hang."""
from rules import entries, panic, loops, recursion, eofstores
from vlib import mir


def check(ctx):
    prog, rep = ctx.prog, ctx.rep
    EZ = entries.zinc_decoders(prog)
    EJ = entries.json_decoders(prog)
    E = sorted(set(EZ) | set(EJ))
    rep.analysed["entry_points"] = len(E)
    rep.floor("Zinc decoder bodies", len(EZ), 80)
    rep.floor("Hayson decoder bodies", len(EJ), 35)
    pr = panic.PanicRule(ctx, parsed_timestamps_only=True)
    reach, nsites = pr.run(E, rep)
    rep.floor("potential panic sites examined", nsites, 40)
    lr = loops.LoopRule(ctx, eof_only_errors=False)
    nloops = lr.run(E, rep)
    rep.analysed["loops"] = nloops
    rep.analysed["loop_certificates"] = dict(lr.counts)
    rep.analysed["scanner_summaries"] = len(lr.ai.summaries)
    rep.floor("loops reachable from the decoders", nloops, 27)
    rep.floor("input-driven loops certified by the scanner measure (L2)", lr.counts["L2"], 14)
    rep.floor("finite-producer loops (L1)", lr.counts["L1"], 10)
    from rules import streams as _st
    _st.check_iterator_fused_on_error(ctx, rep)
    n = eofstores.check(ctx, rep)
    rep.floor("stores to Scanner.is_eof", n, 3)
    sccs = recursion.check(ctx, E, rep, decoder=True)
    recursion.check_guard_balance(ctx, rep)
    rep.floor("recursive call-graph cycles examined", len(sccs), 2)
    serde_limit(ctx, rep)
    rep.assume("A1: rustc's MIR of the default-feature lib build is the program")
    rep.assume("A2: external functions outside the may-panic table return without panicking; a caller-supplied Read returns")
    rep.assume("timestamps in scope are parsed (0000-9999): chrono's local-time accessors panic only within a day of its +-262143-year limits")
    rep.assume("A6: fewer than 2^64 loop iterations per run")
    rep.assume("A7: chrono's FixedOffset Display is +HH:MM[:SS]")
    return ("Decoders analysed as a whole program: R-PANIC over the %d bodies reachable from %d Zinc and Hayson decoder entry points (%d sites); "
            "R-LOOP: %d loops, each with a termination certificate - %d by an abstract interpreter over the scanner state (byte sets x eof x token x "
            "measure = stream+peek buffer+!eof; every way round a loop must strictly decrease the measure, for every reader behaviour including "
            "I/O errors and any chunking), %d by a finite std/serde producer on every cycle, %d by visited sets; T-FUSE: the lazy row iterator yields nothing after an error (so draining it terminates); R-REC: every call-graph cycle has a "
            "depth guard, is bounded by serde_json's recursion limit, or descends structurally over an already-built value." % (
                len(reach), len(E), nsites, nloops, lr.counts["L2"], lr.counts["L1"], lr.counts["L3"]))


def serde_limit(ctx, rep):
    """A3 is only as good as: nobody disables serde_json's recursion limit"""
    bad = []
    for b in ctx.prog.bodies.values():
        for bi, t in b.calls():
            nm = mir.callee_name(t) or ""
            if "disable_recursion_limit" in nm:
                bad.append(b)
    import os

    cargo = open(os.path.join(getattr(ctx, "repo_root", "/repo"), "Cargo.toml")).read()
    if "unbounded_depth" in cargo:
        rep.bad("R-REC", "R-REC:serde_json:unbounded_depth", "Cargo.toml", "serde_json feature unbounded_depth enabled: Hayson nesting is no longer bounded")
    for b in bad:
        rep.bad("R-REC", "R-REC:disable_recursion_limit:" + b.short, b.where(), "serde_json recursion limit disabled")
    if not bad and "unbounded_depth" not in cargo:
        rep.ok("R-REC", "serde_json:recursion-limit-in-force", "Cargo.toml", "no call to disable_recursion_limit; feature unbounded_depth not enabled")


MANIFEST = {
    "technique": "static analysis: abstract interpretation of MIR (scanner byte-set/EOF/measure domain) + panic-site discharge + call-graph recursion certificates",
    "level": "Whole-program static argument that decoding terminates without panicking for every input and every reader behaviour: (1) every "
    "potential panic site reachable from the Zinc and Hayson decoders is discharged by a guard re-derived from the MIR; (2) every loop has a "
    "termination certificate, the input-driven ones by an abstract interpreter that analyses the scanner's own code (nothing trusted) and "
    "proves that the measure 'bytes left in stream + peek buffer + not-yet-EOF (then token rank)' strictly decreases on every path around the "
    "loop, including paths where the reader fails with any error at any offset; (3) every recursive cycle is depth-guarded (128), bounded by "
    "serde_json's limit, or structurally descending. Tests can only sample inputs; this quantifies over all of them.",
    "note": "Trusted: rustc MIR (default features, debug profile); std/serde_json/chrono behave as documented (A2, A3, A7); tables/panic_discharge.json "
    "and tables/loop_certs.json entries (each re-validated by a predicate). Not decided: memory exhaustion on huge inputs.",
}
