"""C18 The C API is memory-safe under its ownership protocol and tolerates null."""
from rules import entries, ffi, panic


def check(ctx):
    prog, rep = ctx.prog, ctx.rep
    E = entries.extern_c(prog)
    rep.floor('#[no_mangle] extern "C" functions', len(E), 85)
    nfuncs, nparams = ffi.check_null_before_use(ctx, rep)
    rep.floor("extern functions with raw-pointer parameters", nfuncs, 72)
    rep.floor("raw-pointer parameters", nparams, 95)
    nown, ntypes = ffi.check_ownership(ctx, rep)
    nrs = ffi.check_returned_strings(ctx, rep)
    rep.floor("exported functions returning a C string", nrs, 8)
    rep.floor("ownership primitives (from_raw / into_raw) in c_api", nown, 12)
    rep.floor("owning handle types returned", ntypes, 1)
    nuns = ffi.check_unsafe_calls(ctx, rep)
    rep.floor("calls to unsafe fns in c_api", nuns, 100)
    # N2 (null is reported) shares the error dataflow with C17
    ffi.check_errors(ctx, rep)
    ffi.check_internal_calls_of_owning_functions(ctx, rep)
    ffi.check_verb_delegation(ctx, rep)
    ffi.check_c_string_conversions(ctx, rep)
    nn4 = ffi.check_null_reported_on_every_path(ctx, rep)
    rep.floor("pointer arguments whose null test precedes every plain return (N4)", nn4, 98)
    pr = panic.PanicRule(ctx)
    reach, nsites = pr.run(E, rep)
    rep.floor("potential panic sites reachable from the C boundary", nsites, 60)
    rep.analysed["extern_fns"] = len(E)
    rep.analysed["pointer_params"] = nparams
    rep.assume("A2: external functions outside the may-panic table do not panic")
    rep.assume("the caller follows the documented protocol (handles destroyed exactly once, borrowed pointers not used after their container changes): caller-side violations are outside what a library-side analysis can decide")
    return ("All %d extern \"C\" functions: N1 must-dataflow 'pointer known non-null' over %d raw-pointer parameters (every use other than "
            "is_null/as_ref/as_mut must be dominated by a passed null test; forwarding to another function requires the callee to be clean); "
            "N2 every null arm reaches new_error/update_last_error before returning; N3 Box::from_raw / CString::from_raw only in the two destroy "
            "functions, into_raw results flow to the return value, no leak primitives, every owning handle type has a destroy function; N5 every call to an unsafe fn is on an audited whitelist (no raw writes, unchecked constructors, transmutes); N4 "
            "R-PANIC over the %d bodies reachable from the boundary (%d sites)." % (len(E), nparams, len(reach), nsites))


MANIFEST = {
    "technique": "static analysis: must-dataflow (non-null facts, error-recorded facts) on MIR of every extern \"C\" fn, who-may-call ownership table, panic-site discharge; forward state analysis (tested pointer arguments x error recorded) for null reporting on every path",
    "level": "Library-side static proof obligations for the whole C boundary: no pointer argument is dereferenced, wrapped by CStr::from_ptr or "
    "stored before a null test that dominates the use (all paths); every null arm records an error and every return without an error record lies on paths that tested every pointer argument (N4); allocation and deallocation are paired by "
    "type and confined to the two destroy functions; no panic site is reachable inside an extern \"C\" function. The existing suite has no C API "
    "tests beyond doctests; this covers all 91 functions and all their paths.",
    "note": "Not decided: caller-side protocol violations and aliasing of borrowed entry pointers after container mutation (need the call history). "
    "Trusted: rustc MIR, A2, reviewed discharge tables.",
}
