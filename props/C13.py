"""C13 Def namespace queries agree with the subtype graph: the composition skeleton (partial claim)."""
from rules import defsrules as D


def check(ctx):
    rep = ctx.rep
    n1 = D.check_fits(ctx, rep)
    rep.floor("fits / fits_* obligations", n1, 6)
    n2 = D.check_inheritance(ctx, rep)
    rep.floor("inheritance obligations", n2, 2)
    n3 = D.check_closures(ctx, rep)
    rep.floor("transitive-closure loop obligations (supertypes, subtypes)", n3, 6)
    n4 = D.check_direct_edges(ctx, rep)
    rep.floor("direct-edge index obligations", n4, 3)
    n5 = D.check_reflect(ctx, rep)
    rep.floor("reflect / conjunct obligations", n5, 6)
    n7 = D.check_full_scans(ctx, rep)
    rep.floor("iterator loops of the query functions", n7, 8)
    n6 = D.check_reflection_fits(ctx, rep)
    rep.floor("Reflection::fits / IsA obligations", n6, 2)
    rep.note("Not decided: the contents of any answer for a given defs grid (set-valued functions of runtime data), choices_for / associations / "
             "protos, and that HashSet / BTreeMap behave as sets and maps (trusted). Termination of the closure loops is C09, cache discipline C14.")
    rep.assume("std collections implement set union / membership (HashSet::insert, extend, contains, Iterator::any / all, collect)")
    return ("The property defines every query as a composition of sets; the rules check that the code composes exactly those parts with the arguments "
            "in those positions: fits(def, base) = inheritance(def).contains(get(base)) with one branch (base undefined -> false) and the four fits_* "
            "wrappers pass ^marker / ^val / ^choice / ^entity; inheritance(s) = {get(s)} + all_supertypes_of(s), the def unconditionally; "
            "all_supertypes_of / all_subtypes_of are work-list closures seeded with the direct edges of s, in which every def inserted into the visited "
            "set for the first time has the direct edges of *that* def pushed (must-pass on the CFG, skipped only under is_empty of that list) and the "
            "result is the visited set; the subtypes index pushes each def under every Symbol of its own `is` list with no further filter and "
            "supertypes_of collects get(x) for the symbols of the def's own `is`; reflect = Reflection::make(subject, find_supertypes_from_defs(defs)) "
            "where defs holds get(^tag) for every key unconditionally plus find_conjuncts(tags that are markers), find_conjuncts requires ALL parts and "
            "joins with '-', find_supertypes_from_defs is the union of each def with all_supertypes_of that def; Reflection::fits is ANY def fits base "
            "and IsA::eval is reflect(record).fits(symbol).")


MANIFEST = {
    "technique": "static analysis: composition-skeleton rules over MIR (resolved callees with symbolic argument provenance, dominance of guards, must-pass-through on the closure loops' CFG)",
    "level": "Decides a necessary structural condition of every clause of the property: each taxonomy query is assembled from the sets the property names, "
    "with def / base / record in the right argument positions, the two transitive closures expand every newly visited node, and the reflection takes every "
    "tag and only all-marker conjuncts. Swapping def and base in fits, dropping the def from its own inheritance, expanding the wrong node in the "
    "closure, `any` for `all` in the conjunct test or filtering tags before reflection are reported at the construct. The answers themselves (set "
    "contents for arbitrary and for the shipped defs) are runtime values and are not decided.",
    "note": "Partial claim (composition only); DESIGN.md section 4 originally listed C13 as not applicable and says what remains so. Trusted: rustc MIR, std collections.",
}
