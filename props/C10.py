"""C10 Encoders never panic on any constructible value."""
from rules import entries, panic, zincwriter, recursion


def check(ctx):
    prog, rep = ctx.prog, ctx.rep
    E = entries.encoders(prog)
    rep.analysed["entry_points"] = len(E)
    rep.floor("encoder entry points (ToZinc/ZincEncode/Serialize/Display impls)", len(E), 60)
    rep.floor("Zinc writer impls", len(entries.by_trait(prog, entries.ZENC + "ToZinc", "to_zinc")) + len(entries.by_trait(prog, entries.ZENC + "ZincEncode")), 19)
    rep.floor("Serialize impls", len(entries.by_trait(prog, "serde::Serialize")), 15)
    pr = panic.PanicRule(ctx)
    reach, nsites = pr.run(E, rep)
    rep.analysed["panic_sites_examined"] = nsites
    # UTF-8 fragment rule (String::from_utf8 in to_zinc_string cannot fail; Display for Value cannot fail)
    obs, nfr = zincwriter.check(ctx)
    for ok, key, where, msg in obs:
        (rep.ok if ok else rep.bad)("R-UTF8", key, where, msg)
    rep.floor("write_all fragments in the Zinc encoder", nfr, 30)
    from rules import escapes
    escapes.check_write_methods(ctx, rep)
    recursion.check(ctx, E, rep, data_bounded=True)
    rep.assume("A2: external functions outside the may-panic table (std, chrono, serde_json, regex) return without panicking")
    rep.assume("A6: fewer than 2^64 loop iterations per run (counter +1 overflow)")
    rep.assume("nesting depth <= 64 as stated by the property: recursion over an already-built Value is data-bounded")
    return ("R-PANIC over every body reachable in the call graph from the %d encoder entry points (%d bodies, %d potential panic sites: "
            "overflow/bounds/division asserts, unwrap/expect, indexing and slicing, positional Vec/String ops, RefCell borrows, chrono range "
            "constructors, format!/to_string on fallible Display impls); each site discharged by a dominance-checked guard rule or a "
            "reviewed table entry whose predicate is re-validated; plus the UTF-8 fragment rule over %d write_all sites." % (len(E), len(reach), nsites, nfr))


MANIFEST = {
    "technique": "static analysis: call-graph reachability + panic-site discharge by dominance-checked guards on rustc MIR",
    "level": "Sound-modulo-assumptions absence proof of panics in the encoders: every potential panic site (MIR Assert terminators, calls into a "
    "may-panic API table, format!/to_string on fallible Display impls) in every function reachable from the Zinc/Hayson/Display entry points is "
    "discharged by a guard the checker re-derives from the MIR on each run, or reported with file:line and call path. Quantifies over all values "
    "and all CFG paths, which is what sampling tests cannot do. Recursion is certified data-bounded (structural descent), relying on the depth "
    "<= 64 bound of the statement.",
    "note": "Trusted: rustc MIR of the default-feature lib build; external crates outside the may-panic table are assumed total (A2); "
    "tables/panic_discharge.json entries (each with a re-validated predicate); < 2^64 loop iterations (A6).",
}
