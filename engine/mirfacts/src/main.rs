//! mirfacts: rustc_private driver that dumps the type-checked program (MIR bodies with
//! resolved callees, ADT tables, trait impl tables) of one crate as JSON lines.
//!
//! Used as RUSTC_WORKSPACE_WRAPPER: argv = [driver, rustc, args...].
//! Env: MIRFACTS_OUT (file to write), MIRFACTS_CRATE (crate name to dump; default libhaystack).
#![feature(rustc_private)]
#![feature(box_patterns)]

extern crate rustc_abi;
extern crate rustc_driver;
extern crate rustc_hir;
extern crate rustc_interface;
extern crate rustc_middle;
extern crate rustc_session;
extern crate rustc_span;

use std::fmt::Write as _;

use rustc_driver::Compilation;
use rustc_hir::def::DefKind;
use rustc_hir::def_id::{DefId, LocalDefId, LOCAL_CRATE};
use rustc_middle::mir::{
    self, AggregateKind, AssertKind, BasicBlockData, Body, Const, ConstValue, Operand, Place,
    ProjectionElem, Rvalue, StatementKind, TerminatorKind,
};
use rustc_middle::ty::print::with_no_trimmed_paths;
use rustc_middle::ty::{self, Instance, Ty, TyCtxt, TypingEnv};
use rustc_span::Span;

// ---------------------------------------------------------------- tiny JSON builder

fn jstr(s: &str) -> String {
    let mut o = String::with_capacity(s.len() + 2);
    o.push('"');
    for c in s.chars() {
        match c {
            '"' => o.push_str("\\\""),
            '\\' => o.push_str("\\\\"),
            '\n' => o.push_str("\\n"),
            '\r' => o.push_str("\\r"),
            '\t' => o.push_str("\\t"),
            c if (c as u32) < 0x20 => {
                let _ = write!(o, "\\u{:04x}", c as u32);
            }
            c => o.push(c),
        }
    }
    o.push('"');
    o
}

struct Obj(String);
impl Obj {
    fn new() -> Self {
        Obj(String::from("{"))
    }
    fn raw(mut self, k: &str, v: &str) -> Self {
        if self.0.len() > 1 {
            self.0.push(',');
        }
        self.0.push_str(&jstr(k));
        self.0.push(':');
        self.0.push_str(v);
        self
    }
    fn s(self, k: &str, v: &str) -> Self {
        let v = jstr(v);
        self.raw(k, &v)
    }
    fn n<T: std::fmt::Display>(self, k: &str, v: T) -> Self {
        let v = v.to_string();
        self.raw(k, &v)
    }
    fn b(self, k: &str, v: bool) -> Self {
        self.raw(k, if v { "true" } else { "false" })
    }
    fn end(mut self) -> String {
        self.0.push('}');
        self.0
    }
}

fn arr<I: IntoIterator<Item = String>>(it: I) -> String {
    let mut o = String::from("[");
    let mut first = true;
    for x in it {
        if !first {
            o.push(',');
        }
        first = false;
        o.push_str(&x);
    }
    o.push(']');
    o
}

// ---------------------------------------------------------------- dumper

struct Dumper<'tcx> {
    tcx: TyCtxt<'tcx>,
    out: Vec<String>,
}

fn path_of(tcx: TyCtxt<'_>, did: DefId) -> String {
    with_no_trimmed_paths!(tcx.def_path_str(did))
}

fn ty_str(t: Ty<'_>) -> String {
    with_no_trimmed_paths!(t.to_string())
}

impl<'tcx> Dumper<'tcx> {
    fn loc(&self, sp: Span) -> (String, usize, usize) {
        let sm = self.tcx.sess.source_map();
        // use the outermost call site so macro expansions map to the user's line
        let sp0 = sp.source_callsite();
        let lo = sm.lookup_char_pos(sp0.lo());
        let hi = sm.lookup_char_pos(sp0.hi());
        let f = match &lo.file.name {
            rustc_span::FileName::Real(r) => match r.local_path() {
                Some(p) => p.to_string_lossy().to_string(),
                None => format!("{:?}", lo.file.name),
            },
            other => format!("{:?}", other),
        };
        (f, lo.line, hi.line)
    }

    fn adt_path(&self, t: Ty<'tcx>) -> Option<String> {
        match t.kind() {
            ty::Adt(def, _) => Some(path_of(self.tcx, def.did())),
            _ => None,
        }
    }

    fn place(&self, body: &Body<'tcx>, p: &Place<'tcx>) -> String {
        let tcx = self.tcx;
        let mut projs = Vec::new();
        let mut pty = mir::PlaceTy::from_ty(body.local_decls[p.local].ty);
        for elem in p.projection.iter() {
            let s = match elem {
                ProjectionElem::Deref => "\"*\"".to_string(),
                ProjectionElem::Field(f, fty) => {
                    let mut name = f.index().to_string();
                    let mut owner_adt = String::new();
                    if let ty::Adt(def, _) = pty.ty.kind() {
                        owner_adt = path_of(self.tcx, def.did());
                        let vidx = pty.variant_index.unwrap_or(rustc_abi::FIRST_VARIANT);
                        if def.is_enum() || def.is_struct() || def.is_union() {
                            if let Some(v) = def.variants().get(vidx) {
                                if let Some(fd) = v.fields.get(f) {
                                    name = fd.name.to_string();
                                }
                            }
                        }
                    }
                    let mut fo = Obj::new().n("f", f.index()).s("n", &name).s("ty", &ty_str(fty));
                    if !owner_adt.is_empty() {
                        fo = fo.s("a", &owner_adt);
                    }
                    fo.end()
                }
                ProjectionElem::Index(l) => Obj::new().n("idx", l.index()).end(),
                ProjectionElem::ConstantIndex { offset, min_length, from_end } => Obj::new()
                    .n("cidx", offset)
                    .n("min", min_length)
                    .b("from_end", from_end)
                    .end(),
                ProjectionElem::Subslice { from, to, from_end } => {
                    Obj::new().n("sub_from", from).n("to", to).b("from_end", from_end).end()
                }
                ProjectionElem::Downcast(name, vidx) => {
                    let n = match name {
                        Some(s) => s.to_string(),
                        None => {
                            if let ty::Adt(def, _) = pty.ty.kind() {
                                def.variants()[vidx].name.to_string()
                            } else {
                                vidx.index().to_string()
                            }
                        }
                    };
                    Obj::new().s("dc", &n).n("v", vidx.index()).end()
                }
                ProjectionElem::OpaqueCast(t) => Obj::new().s("opaque", &ty_str(t)).end(),
                ProjectionElem::UnwrapUnsafeBinder(t) => Obj::new().s("unwrap_binder", &ty_str(t)).end(),
            };
            projs.push(s);
            pty = pty.projection_ty(tcx, elem);
        }
        Obj::new().n("l", p.local.index()).raw("p", &arr(projs)).end()
    }

    fn read_bytes_of_ptr(&self, scalar: mir::interpret::Scalar, len: u64) -> Option<Vec<u8>> {
        use mir::interpret::{GlobalAlloc, Scalar};
        if let Scalar::Ptr(ptr, _) = scalar {
            let (prov, offset) = ptr.into_raw_parts();
            let alloc_id = prov.alloc_id();
            if let Some(GlobalAlloc::Memory(alloc)) = self.tcx.try_get_global_alloc(alloc_id) {
                let a = alloc.inner();
                let start = offset.bytes() as usize;
                let end = start + len as usize;
                if end <= a.len() {
                    return Some(
                        a.inspect_with_uninit_and_ptr_outside_interpreter(start..end).to_vec(),
                    );
                }
            }
        }
        None
    }

    fn constant(&self, owner: DefId, c: &Const<'tcx>) -> String {
        let tcx = self.tcx;
        let ty = c.ty();
        let mut o = Obj::new().s("ty", &ty_str(ty));
        // function items
        if let ty::FnDef(did, args) = ty.kind() {
            o = o.s("fn", &path_of(tcx, *did));
            o = o.s("fn_full", &with_no_trimmed_paths!(tcx.def_path_str_with_args(*did, args)));
            o = o.raw(
                "targs",
                &arr(args.iter().map(|a| jstr(&with_no_trimmed_paths!(a.to_string())))),
            );
            let tenv = TypingEnv::post_analysis(tcx, owner);
            if let Ok(Some(inst)) = Instance::try_resolve(tcx, tenv, *did, args) {
                let rd = inst.def_id();
                o = o.s("res", &path_of(tcx, rd));
                o = o.b("res_local", rd.is_local());
                o = o.s("res_crate", tcx.crate_name(rd.krate).as_str());
                o = o.s("res_kind", &format!("{:?}", std::mem::discriminant(&inst.def)).replace("Discriminant", ""));
                let kind = match inst.def {
                    ty::InstanceKind::Item(_) => "item",
                    ty::InstanceKind::Intrinsic(_) => "intrinsic",
                    ty::InstanceKind::Virtual(..) => "virtual",
                    ty::InstanceKind::ClosureOnceShim { .. } => "closure_once_shim",
                    ty::InstanceKind::FnPtrShim(..) => "fnptr_shim",
                    ty::InstanceKind::DropGlue(..) => "drop_glue",
                    ty::InstanceKind::CloneShim(..) => "clone_shim",
                    ty::InstanceKind::ReifyShim(..) => "reify_shim",
                    ty::InstanceKind::VTableShim(..) => "vtable_shim",
                    _ => "other",
                };
                o = o.s("res_kind", kind);
                o = o.s(
                    "res_full",
                    &with_no_trimmed_paths!(tcx.def_path_str_with_args(rd, inst.args)),
                );
            }
            o = o.s("crate", tcx.crate_name(did.krate).as_str());
            return o.end();
        }
        if let ty::Closure(did, _) = ty.kind() {
            o = o.s("closure", &path_of(tcx, *did));
            return o.end();
        }
        match c {
            Const::Unevaluated(uv, _) => {
                if let Some(p) = uv.promoted {
                    o = o.n("promoted", p.index());
                    o = o.s("promoted_of", &path_of(tcx, uv.def));
                    return o.end();
                }
                o = o.s("uneval", &path_of(tcx, uv.def));
            }
            _ => {}
        }
        let tenv = TypingEnv::post_analysis(tcx, owner);
        let val = match c {
            Const::Val(v, _) => Some(*v),
            _ => c.eval(tcx, tenv, rustc_span::DUMMY_SP).ok(),
        };
        if let Some(v) = val {
            match v {
                ConstValue::Scalar(s) => {
                    if let mir::interpret::Scalar::Int(i) = s {
                        let bits = i.to_bits(i.size());
                        o = o.s("int", &bits.to_string());
                        o = o.n("size", i.size().bytes());
                        if ty.is_bool() {
                            o = o.b("bool", bits != 0);
                        }
                        if ty.is_char() {
                            if let Some(ch) = char::from_u32(bits as u32) {
                                o = o.s("char", &ch.to_string());
                            }
                        }
                        if ty.is_floating_point() {
                            let f = if i.size().bytes() == 8 {
                                f64::from_bits(bits as u64)
                            } else {
                                f32::from_bits(bits as u32) as f64
                            };
                            o = o.s("float", &format!("{:?}", f));
                        }
                        if ty.is_signed() {
                            let sz = i.size().bits();
                            let sv = if sz == 128 {
                                bits as i128
                            } else {
                                let shift = 128 - sz;
                                ((bits << shift) as i128) >> shift
                            };
                            o = o.s("sint", &sv.to_string());
                        }
                    } else {
                        // pointer: try byte arrays &[u8; N]
                        if let ty::Ref(_, inner, _) = ty.kind() {
                            if let ty::Array(et, n) = inner.kind() {
                                if *et == tcx.types.u8 {
                                    if let Some(n) = n.try_to_target_usize(tcx) {
                                        if let Some(b) = self.read_bytes_of_ptr(s, n) {
                                            o = o.raw(
                                                "bytes",
                                                &arr(b.iter().map(|x| x.to_string())),
                                            );
                                        }
                                    }
                                }
                            }
                        }
                        o = o.b("ptr", true);
                    }
                }
                ConstValue::ZeroSized => {
                    o = o.b("zst", true);
                }
                ConstValue::Slice { .. } => {
                    if let Some(b) = v.try_get_slice_bytes_for_diagnostics(tcx) {
                        o = o.raw("bytes", &arr(b.iter().map(|x| x.to_string())));
                        if let Ok(s) = std::str::from_utf8(b) {
                            o = o.s("str", s);
                        }
                    }
                }
                ConstValue::Indirect { alloc_id, offset } => {
                    o = o.b("indirect", true);
                    // arrays of string slices (`const NAMES: [&str; N]`): the texts, element by element
                    if let ty::Array(et, n) = ty.kind() {
                        let is_str_ref = matches!(et.kind(), ty::Ref(_, inner, _) if inner.is_str());
                        if is_str_ref {
                            if let (Some(n), Some(mir::interpret::GlobalAlloc::Memory(alloc))) =
                                (n.try_to_target_usize(tcx), tcx.try_get_global_alloc(alloc_id))
                            {
                                let a = alloc.inner();
                                let base = offset.bytes() as usize;
                                let mut strs: Vec<String> = Vec::new();
                                let mut complete = true;
                                for i in 0..(n as usize) {
                                    let at = base + i * 16;
                                    if at + 16 > a.len() {
                                        complete = false;
                                        break;
                                    }
                                    let raw = a.inspect_with_uninit_and_ptr_outside_interpreter(at..at + 16);
                                    let mut pb = [0u8; 8];
                                    pb.copy_from_slice(&raw[0..8]);
                                    let mut lb = [0u8; 8];
                                    lb.copy_from_slice(&raw[8..16]);
                                    let poff = u64::from_le_bytes(pb) as usize;
                                    let len = u64::from_le_bytes(lb) as usize;
                                    let prov = a.provenance().ptrs().get(&rustc_abi::Size::from_bytes(at as u64));
                                    let mut got = None;
                                    if let Some(p) = prov {
                                        if let Some(mir::interpret::GlobalAlloc::Memory(ta)) = tcx.try_get_global_alloc(p.alloc_id()) {
                                            let t = ta.inner();
                                            if poff + len <= t.len() {
                                                let b = t.inspect_with_uninit_and_ptr_outside_interpreter(poff..poff + len);
                                                if let Ok(st) = std::str::from_utf8(b) {
                                                    got = Some(st.to_string());
                                                }
                                            }
                                        }
                                    }
                                    match got {
                                        Some(st) => strs.push(jstr(&st)),
                                        None => {
                                            complete = false;
                                            break;
                                        }
                                    }
                                }
                                if complete {
                                    o = o.raw("strs", &arr(strs));
                                }
                            }
                        }
                    }
                    // small memory-backed constants: raw bytes plus field offsets of struct ADTs
                    if let Ok(layout) = tcx.layout_of(tenv.as_query_input(ty)) {
                        let size = layout.size.bytes() as usize;
                        if size <= 64 {
                            if let Some(mir::interpret::GlobalAlloc::Memory(alloc)) =
                                tcx.try_get_global_alloc(alloc_id)
                            {
                                let a = alloc.inner();
                                let start = offset.bytes() as usize;
                                if start + size <= a.len() {
                                    let b = a.inspect_with_uninit_and_ptr_outside_interpreter(start..start + size);
                                    o = o.raw("raw", &arr(b.iter().map(|x| x.to_string())));
                                }
                            }
                            if let ty::Adt(def, _) = ty.kind() {
                                if def.is_struct() {
                                    let v = def.non_enum_variant();
                                    let offs: Vec<String> = (0..v.fields.len())
                                        .map(|i| {
                                            format!(
                                                "[{},{}]",
                                                jstr(v.fields[rustc_abi::FieldIdx::from_usize(i)].name.as_str()),
                                                layout.fields.offset(i).bytes()
                                            )
                                        })
                                        .collect();
                                    o = o.raw("field_offsets", &arr(offs));
                                }
                            }
                        }
                    }
                }
            }
        }
        o.end()
    }

    fn operand(&self, owner: DefId, body: &Body<'tcx>, op: &Operand<'tcx>) -> String {
        match op {
            Operand::Copy(p) => Obj::new().raw("cp", &self.place(body, p)).end(),
            Operand::Move(p) => Obj::new().raw("mv", &self.place(body, p)).end(),
            Operand::Constant(box c) => Obj::new().raw("c", &self.constant(owner, &c.const_)).end(),
            #[allow(unreachable_patterns)]
            _ => Obj::new().s("other_operand", &format!("{:?}", op)).end(),
        }
    }

    fn rvalue(&self, owner: DefId, body: &Body<'tcx>, rv: &Rvalue<'tcx>) -> String {
        let tcx = self.tcx;
        match rv {
            Rvalue::Use(op, ..) => Obj::new().s("k", "use").raw("op", &self.operand(owner, body, op)).end(),
            Rvalue::Repeat(op, _) => {
                Obj::new().s("k", "repeat").raw("op", &self.operand(owner, body, op)).end()
            }
            Rvalue::Ref(_, bk, p) => Obj::new()
                .s("k", "ref")
                .s("bk", match bk {
                    mir::BorrowKind::Shared => "shared",
                    mir::BorrowKind::Fake(_) => "fake",
                    mir::BorrowKind::Mut { .. } => "mut",
                })
                .raw("place", &self.place(body, p))
                .end(),
            Rvalue::ThreadLocalRef(d) => Obj::new().s("k", "tls").s("def", &path_of(tcx, *d)).end(),
            Rvalue::RawPtr(kind, p) => Obj::new()
                .s("k", "rawptr")
                .s("bk", &format!("{:?}", kind))
                .raw("place", &self.place(body, p))
                .end(),
            Rvalue::Cast(ck, op, t) => Obj::new()
                .s("k", "cast")
                .s("ck", &format!("{:?}", ck))
                .raw("op", &self.operand(owner, body, op))
                .s("ty", &ty_str(*t))
                .s("from_ty", &ty_str(op.ty(&body.local_decls, tcx)))
                .end(),
            Rvalue::BinaryOp(bop, box (a, b)) => Obj::new()
                .s("k", "binop")
                .s("op", &format!("{:?}", bop))
                .raw("a", &self.operand(owner, body, a))
                .raw("b", &self.operand(owner, body, b))
                .s("aty", &ty_str(a.ty(&body.local_decls, tcx)))
                .end(),
            Rvalue::UnaryOp(uop, a) => Obj::new()
                .s("k", "unop")
                .s("op", &format!("{:?}", uop))
                .raw("a", &self.operand(owner, body, a))
                .s("aty", &ty_str(a.ty(&body.local_decls, tcx)))
                .end(),
            Rvalue::Discriminant(p) => {
                let pt = p.ty(&body.local_decls, tcx).ty;
                let mut o = Obj::new().s("k", "discr").raw("place", &self.place(body, p)).s("ty", &ty_str(pt));
                if let Some(a) = self.adt_path(pt) {
                    o = o.s("adt", &a);
                }
                o.end()
            }
            Rvalue::Aggregate(box kind, ops) => {
                let mut o = Obj::new().s("k", "agg");
                match kind {
                    AggregateKind::Array(t) => {
                        o = o.s("ak", "array").s("ty", &ty_str(*t));
                    }
                    AggregateKind::Tuple => {
                        o = o.s("ak", "tuple");
                    }
                    AggregateKind::Adt(did, vidx, args, _, _) => {
                        let def = tcx.adt_def(*did);
                        let v = &def.variants()[*vidx];
                        o = o
                            .s("ak", "adt")
                            .s("adt", &path_of(tcx, *did))
                            .s("variant", v.name.as_str())
                            .n("vidx", vidx.index())
                            .s("ty", &with_no_trimmed_paths!(tcx.def_path_str_with_args(*did, args)))
                            .raw("fields", &arr(v.fields.iter().map(|f| jstr(f.name.as_str()))));
                    }
                    AggregateKind::Closure(did, _) => {
                        o = o.s("ak", "closure").s("closure", &path_of(tcx, *did));
                    }
                    AggregateKind::Coroutine(did, _) => {
                        o = o.s("ak", "coroutine").s("closure", &path_of(tcx, *did));
                    }
                    AggregateKind::CoroutineClosure(did, _) => {
                        o = o.s("ak", "coroutine_closure").s("closure", &path_of(tcx, *did));
                    }
                    AggregateKind::RawPtr(t, _) => {
                        o = o.s("ak", "rawptr").s("ty", &ty_str(*t));
                    }
                }
                o.raw("ops", &arr(ops.iter().map(|x| self.operand(owner, body, x)))).end()
            }
            Rvalue::CopyForDeref(p) => {
                Obj::new().s("k", "use").raw("op", &Obj::new().raw("cp", &self.place(body, p)).end()).b("deref_copy", true).end()
            }
            Rvalue::WrapUnsafeBinder(op, _) => {
                Obj::new().s("k", "use").raw("op", &self.operand(owner, body, op)).end()
            }
            #[allow(unreachable_patterns)]
            _ => Obj::new().s("k", "other").s("dbg", &format!("{:?}", rv)).end(),
        }
    }

    fn line_of(&self, sp: Span) -> usize {
        let sm = self.tcx.sess.source_map();
        sm.lookup_char_pos(sp.source_callsite().lo()).line
    }

    fn block(&self, owner: DefId, body: &Body<'tcx>, bb: &BasicBlockData<'tcx>) -> String {
        let tcx = self.tcx;
        let mut stmts = Vec::new();
        for st in &bb.statements {
            let line = self.line_of(st.source_info.span);
            let exp = st.source_info.span.from_expansion();
            let s = match &st.kind {
                StatementKind::Assign(box (p, rv)) => Obj::new()
                    .s("k", "assign")
                    .raw("lhs", &self.place(body, p))
                    .raw("rv", &self.rvalue(owner, body, rv))
                    .n("line", line)
                    .b("exp", exp)
                    .end(),
                StatementKind::SetDiscriminant { place, variant_index } => Obj::new()
                    .s("k", "setdiscr")
                    .raw("lhs", &self.place(body, place))
                    .n("v", variant_index.index())
                    .n("line", line)
                    .end(),
                StatementKind::StorageLive(l) => Obj::new().s("k", "live").n("l", l.index()).end(),
                StatementKind::StorageDead(l) => Obj::new().s("k", "dead").n("l", l.index()).end(),
                StatementKind::Intrinsic(box i) => {
                    Obj::new().s("k", "intrinsic").s("dbg", &format!("{:?}", i)).n("line", line).end()
                }
                _ => continue,
            };
            stmts.push(s);
        }
        let term = bb.terminator();
        let line = self.line_of(term.source_info.span);
        let exp = term.source_info.span.from_expansion();
        let t = match &term.kind {
            TerminatorKind::Goto { target } => Obj::new().s("k", "goto").n("t", target.index()),
            TerminatorKind::SwitchInt { discr, targets } => {
                let dty = discr.ty(&body.local_decls, tcx);
                Obj::new()
                    .s("k", "switch")
                    .raw("op", &self.operand(owner, body, discr))
                    .s("ty", &ty_str(dty))
                    .raw(
                        "targets",
                        &arr(targets.iter().map(|(v, t)| format!("[\"{}\",{}]", v, t.index()))),
                    )
                    .n("otherwise", targets.otherwise().index())
            }
            TerminatorKind::UnwindResume => Obj::new().s("k", "resume"),
            TerminatorKind::UnwindTerminate(_) => Obj::new().s("k", "terminate"),
            TerminatorKind::Return => Obj::new().s("k", "return"),
            TerminatorKind::Unreachable => Obj::new().s("k", "unreachable"),
            TerminatorKind::Drop { place, target, unwind, .. } => {
                let pt = place.ty(&body.local_decls, tcx).ty;
                let mut o = Obj::new()
                    .s("k", "drop")
                    .raw("place", &self.place(body, place))
                    .s("ty", &ty_str(pt))
                    .n("t", target.index());
                if let mir::UnwindAction::Cleanup(c) = unwind {
                    o = o.n("unwind", c.index());
                }
                o
            }
            TerminatorKind::Call { func, args, destination, target, unwind, call_source, fn_span } => {
                let mut o = Obj::new()
                    .s("k", "call")
                    .raw("func", &self.operand(owner, body, func))
                    .raw("args", &arr(args.iter().map(|a| self.operand(owner, body, &a.node))))
                    .raw(
                        "arg_tys",
                        &arr(args.iter().map(|a| jstr(&ty_str(a.node.ty(&body.local_decls, tcx))))),
                    )
                    .raw("dest", &self.place(body, destination))
                    .s("dest_ty", &ty_str(destination.ty(&body.local_decls, tcx).ty))
                    .s("src", &format!("{:?}", call_source))
                    .n("fn_line", self.line_of(*fn_span));
                if let Some(t) = target {
                    o = o.n("t", t.index());
                }
                if let mir::UnwindAction::Cleanup(c) = unwind {
                    o = o.n("unwind", c.index());
                }
                o
            }
            TerminatorKind::TailCall { func, args, .. } => Obj::new()
                .s("k", "tailcall")
                .raw("func", &self.operand(owner, body, func))
                .raw("args", &arr(args.iter().map(|a| self.operand(owner, body, &a.node)))),
            TerminatorKind::Assert { cond, expected, msg, target, unwind } => {
                let (mk, extra) = match &**msg {
                    AssertKind::BoundsCheck { len, index } => (
                        "BoundsCheck".to_string(),
                        Obj::new()
                            .raw("len", &self.operand(owner, body, len))
                            .raw("index", &self.operand(owner, body, index))
                            .end(),
                    ),
                    AssertKind::Overflow(op, a, b) => (
                        "Overflow".to_string(),
                        Obj::new()
                            .s("op", &format!("{:?}", op))
                            .raw("a", &self.operand(owner, body, a))
                            .raw("b", &self.operand(owner, body, b))
                            .end(),
                    ),
                    AssertKind::OverflowNeg(a) => {
                        ("OverflowNeg".to_string(), Obj::new().raw("a", &self.operand(owner, body, a)).end())
                    }
                    AssertKind::DivisionByZero(a) => {
                        ("DivisionByZero".to_string(), Obj::new().raw("a", &self.operand(owner, body, a)).end())
                    }
                    AssertKind::RemainderByZero(a) => {
                        ("RemainderByZero".to_string(), Obj::new().raw("a", &self.operand(owner, body, a)).end())
                    }
                    AssertKind::MisalignedPointerDereference { .. } => {
                        ("MisalignedPointerDereference".to_string(), "{}".to_string())
                    }
                    AssertKind::NullPointerDereference => ("NullPointerDereference".to_string(), "{}".to_string()),
                    other => (format!("{:?}", std::mem::discriminant(other)), "{}".to_string()),
                };
                let mut o = Obj::new()
                    .s("k", "assert")
                    .raw("cond", &self.operand(owner, body, cond))
                    .b("expected", *expected)
                    .s("msg", &mk)
                    .raw("detail", &extra)
                    .n("t", target.index());
                if let mir::UnwindAction::Cleanup(c) = unwind {
                    o = o.n("unwind", c.index());
                }
                o
            }
            TerminatorKind::FalseEdge { real_target, .. } => Obj::new().s("k", "goto").n("t", real_target.index()),
            TerminatorKind::FalseUnwind { real_target, .. } => Obj::new().s("k", "goto").n("t", real_target.index()),
            other => Obj::new().s("k", "other").s("dbg", &format!("{:?}", other)),
        };
        Obj::new()
            .raw("stmts", &arr(stmts))
            .raw("term", &t.n("line", line).b("exp", exp).end())
            .b("cleanup", bb.is_cleanup)
            .end()
    }

    fn body_json(&self, owner: DefId, body: &Body<'tcx>) -> String {
        let tcx = self.tcx;
        let locals = arr(body.local_decls.iter().map(|d| {
            let mut o = Obj::new().s("ty", &ty_str(d.ty));
            if let Some(a) = self.adt_path(d.ty) {
                o = o.s("adt", &a);
            }
            o.end()
        }));
        let mut names = Vec::new();
        for vdi in &body.var_debug_info {
            if let mir::VarDebugInfoContents::Place(p) = &vdi.value {
                names.push(
                    Obj::new()
                        .s("name", vdi.name.as_str())
                        .raw("place", &self.place(body, p))
                        .end(),
                );
            }
        }
        let blocks = arr(body.basic_blocks.iter().map(|bb| self.block(owner, body, bb)));
        let _ = tcx;
        Obj::new()
            .n("arg_count", body.arg_count)
            .raw("locals", &locals)
            .raw("names", &arr(names))
            .raw("blocks", &blocks)
            .end()
    }

    fn dump_fn(&mut self, ldid: LocalDefId) {
        let tcx = self.tcx;
        let did = ldid.to_def_id();
        let kind = tcx.def_kind(did);
        let body = tcx.optimized_mir(did);
        let (file, line, end_line) = self.loc(body.span);
        let mut o = Obj::new()
            .s("rec", "body")
            .s("id", &path_of(tcx, did))
            .s("kind", &format!("{:?}", kind))
            .s("file", &file)
            .n("line", line)
            .n("end_line", end_line)
            .b("from_expansion", tcx.def_span(did).from_expansion());
        if matches!(kind, DefKind::Fn | DefKind::AssocFn) {
            let sig = tcx.fn_sig(did).instantiate_identity().skip_normalization();
            o = o.s("abi", &format!("{:?}", sig.abi()));
            let attrs = tcx.codegen_fn_attrs(did);
            o = o.b(
                "no_mangle",
                attrs.flags.contains(rustc_middle::middle::codegen_fn_attrs::CodegenFnAttrFlags::NO_MANGLE),
            );
            if let Some(n) = attrs.symbol_name {
                o = o.s("export_name", n.as_str());
            }
            o = o.s("vis", &format!("{:?}", tcx.visibility(did)));
            o = o.s("name", tcx.item_name(did).as_str());
            let inputs = sig.inputs().skip_binder();
            o = o.raw("sig_inputs", &arr(inputs.iter().map(|t| jstr(&ty_str(*t)))));
            o = o.s("sig_output", &ty_str(sig.output().skip_binder()));
        }
        // parent chain for closures / nested fns
        if matches!(kind, DefKind::Closure) {
            let p = tcx.typeck_root_def_id(did);
            o = o.s("root", &path_of(tcx, p));
            o = o.s("parent", &path_of(tcx, tcx.parent(did)));
        }
        // enclosing impl
        let root = tcx.typeck_root_def_id(did);
        if let Some(impl_did) = tcx.impl_of_assoc(root) {
            let self_ty = tcx.type_of(impl_did).instantiate_identity().skip_normalization();
            let mut io = Obj::new().s("self_ty", &ty_str(self_ty)).s("impl_id", &path_of(tcx, impl_did));
            if let Some(a) = self.adt_path(self_ty) {
                io = io.s("self_adt", &a);
            }
            if tcx.impl_opt_trait_ref(impl_did).is_some() {
                let tr = tcx.impl_trait_ref(impl_did).instantiate_identity().skip_normalization();
                io = io.s("trait", &path_of(tcx, tr.def_id));
                io = io.s("trait_ref", &with_no_trimmed_paths!(tr.to_string()));
            }
            io = io.b("derived", tcx.is_automatically_derived(impl_did));
            o = o.raw("impl", &io.end());
        } else if let Some(tr) = tcx.trait_of_assoc(root) {
            o = o.s("trait_default_of", &path_of(tcx, tr));
        }
        o = o.raw("mir", &self.body_json(did, body));
        let promoted = tcx.promoted_mir(did);
        o = o.raw("promoted", &arr(promoted.iter().map(|b| self.body_json(did, b))));
        self.out.push(o.end());
    }

    fn dump_adts_and_impls(&mut self) {
        let tcx = self.tcx;
        for id in tcx.hir_free_items() {
            let did = id.owner_id.to_def_id();
            match tcx.def_kind(did) {
                DefKind::Struct | DefKind::Enum | DefKind::Union => {
                    let def = tcx.adt_def(did);
                    let (file, line, _) = self.loc(tcx.def_span(did));
                    let variants = arr(def.variants().iter_enumerated().map(|(vi, v)| {
                        let discr = if def.is_enum() {
                            def.discriminant_for_variant(tcx, vi).val.to_string()
                        } else {
                            "0".to_string()
                        };
                        Obj::new()
                            .s("name", v.name.as_str())
                            .n("idx", vi.index())
                            .s("discr", &discr)
                            .raw(
                                "fields",
                                &arr(v.fields.iter().map(|f| {
                                    Obj::new()
                                        .s("name", f.name.as_str())
                                        .s("ty", &ty_str(tcx.type_of(f.did).instantiate_identity().skip_normalization()))
                                        .s("vis", &format!("{:?}", f.vis))
                                        .end()
                                })),
                            )
                            .end()
                    }));
                    self.out.push(
                        Obj::new()
                            .s("rec", "adt")
                            .s("id", &path_of(tcx, did))
                            .s("kind", &format!("{:?}", tcx.def_kind(did)))
                            .s("file", &file)
                            .n("line", line)
                            .raw("variants", &variants)
                            .end(),
                    );
                }
                DefKind::Impl { .. } => {
                    let self_ty = tcx.type_of(did).instantiate_identity().skip_normalization();
                    let (file, line, _) = self.loc(tcx.def_span(did));
                    let mut o = Obj::new()
                        .s("rec", "impl")
                        .s("id", &path_of(tcx, did))
                        .s("self_ty", &ty_str(self_ty))
                        .s("file", &file)
                        .n("line", line)
                        .b("derived", tcx.is_automatically_derived(did));
                    if let Some(a) = self.adt_path(self_ty) {
                        o = o.s("self_adt", &a);
                    }
                    if tcx.impl_opt_trait_ref(did).is_some() {
                        let tr = tcx.impl_trait_ref(did).instantiate_identity().skip_normalization();
                        o = o.s("trait", &path_of(tcx, tr.def_id));
                        o = o.s("trait_ref", &with_no_trimmed_paths!(tr.to_string()));
                    }
                    let items = arr(tcx.associated_items(did).in_definition_order().map(|it| {
                        Obj::new()
                            .s("name", it.name().as_str())
                            .s("id", &path_of(tcx, it.def_id))
                            .s("kind", &format!("{:?}", it.tag()))
                            .end()
                    }));
                    o = o.raw("items", &items);
                    self.out.push(o.end());
                }
                DefKind::Trait => {
                    let items = arr(tcx.associated_items(did).in_definition_order().map(|it| {
                        Obj::new()
                            .s("name", it.name().as_str())
                            .s("id", &path_of(tcx, it.def_id))
                            .b("has_default", it.defaultness(tcx).has_value())
                            .end()
                    }));
                    self.out.push(
                        Obj::new().s("rec", "trait").s("id", &path_of(tcx, did)).raw("items", &items).end(),
                    );
                }
                _ => {}
            }
        }
    }
}

struct Cb;

impl rustc_driver::Callbacks for Cb {
    fn after_analysis<'tcx>(
        &mut self,
        _compiler: &rustc_interface::interface::Compiler,
        tcx: TyCtxt<'tcx>,
    ) -> Compilation {
        let want = std::env::var("MIRFACTS_CRATE").unwrap_or_else(|_| "libhaystack".to_string());
        let name = tcx.crate_name(LOCAL_CRATE).to_string();
        let out = match std::env::var("MIRFACTS_OUT") {
            Ok(o) => o,
            Err(_) => return Compilation::Continue,
        };
        if name != want {
            return Compilation::Continue;
        }
        let mut d = Dumper { tcx, out: Vec::new() };
        d.out.push(
            Obj::new()
                .s("rec", "meta")
                .s("crate", &name)
                .s("rustc", &rustc_interface::util::rustc_version_str().unwrap_or("?").to_string())
                .end(),
        );
        d.dump_adts_and_impls();
        for ldid in tcx.hir_body_owners() {
            let did = ldid.to_def_id();
            match tcx.def_kind(did) {
                DefKind::Fn | DefKind::AssocFn | DefKind::Closure => {
                    if tcx.is_mir_available(did) {
                        d.dump_fn(ldid);
                    }
                }
                _ => {}
            }
        }
        let mut text = d.out.join("\n");
        text.push('\n');
        // one write per process
        std::fs::write(&out, text).expect("mirfacts: cannot write output");
        Compilation::Continue
    }
}

fn main() {
    let mut args: Vec<String> = std::env::args().collect();
    // RUSTC_WORKSPACE_WRAPPER: argv[1] is the path of the real rustc
    if args.len() > 1 && (args[1].ends_with("rustc") || args[1].contains("/rustc")) {
        args.remove(1);
    }
    rustc_driver::run_compiler(&args, &mut Cb);
}
