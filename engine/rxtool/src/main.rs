//! rxtool: static analysis of regular-expression literals found in /repo's MIR constants.
//!   rxtool analyze <pattern>            -> JSON {ok, error, captures:[{index,parent,pattern}], first_bytes:[..], alternatives:n}
//!   rxtool subset  <patternA> <patternB> -> JSON {subset: bool, witness: "..."}   (L(A) subset-of L(B), whole-string match)
use regex_automata::dfa::{dense, Automaton, StartKind};
use regex_automata::util::primitives::StateID;
use regex_automata::util::start;
use regex_automata::Anchored;
use regex_syntax::hir::{Hir, HirKind};
use std::collections::{HashMap, VecDeque};

fn jstr(s: &str) -> String {
    let mut o = String::from("\"");
    for c in s.chars() {
        match c {
            '"' => o.push_str("\\\""),
            '\\' => o.push_str("\\\\"),
            '\n' => o.push_str("\\n"),
            c if (c as u32) < 0x20 => o.push_str(&format!("\\u{:04x}", c as u32)),
            c => o.push(c),
        }
    }
    o.push('"');
    o
}

fn walk(h: &Hir, parent: u32, out: &mut Vec<(u32, u32, String)>) {
    match h.kind() {
        HirKind::Capture(c) => {
            out.push((c.index, parent, format!("{}", c.sub)));
            walk(&c.sub, c.index, out);
        }
        HirKind::Concat(v) | HirKind::Alternation(v) => {
            for x in v {
                walk(x, parent, out);
            }
        }
        HirKind::Repetition(r) => walk(&r.sub, parent, out),
        _ => {}
    }
}

fn build(p: &str) -> Result<dense::DFA<Vec<u32>>, String> {
    dense::Builder::new()
        .configure(dense::Config::new().start_kind(StartKind::Anchored).minimize(false))
        .syntax(regex_automata::util::syntax::Config::new().unicode(true).utf8(true))
        .build(&format!("^(?:{})$", p))
        .map_err(|e| e.to_string())
}

fn start_of(d: &dense::DFA<Vec<u32>>) -> StateID {
    d.start_state(&start::Config::new().anchored(Anchored::Yes)).expect("start state")
}

fn accepts_at_eoi(d: &dense::DFA<Vec<u32>>, s: StateID) -> bool {
    let e = d.next_eoi_state(s);
    d.is_match_state(e)
}

fn analyze(p: &str) {
    let hir = match regex_syntax::Parser::new().parse(p) {
        Ok(h) => h,
        Err(e) => {
            println!("{{\"ok\":false,\"error\":{}}}", jstr(&e.to_string()));
            return;
        }
    };
    let mut caps = Vec::new();
    walk(&hir, 0, &mut caps);
    let alts = match hir.kind() {
        HirKind::Alternation(v) => v.len(),
        _ => 1,
    };
    // first bytes: bytes b such that some match (anywhere-anchored at its start) begins with b
    let mut first = Vec::new();
    match dense::Builder::new()
        .configure(dense::Config::new().start_kind(StartKind::Anchored).minimize(false))
        .build(p)
    {
        Ok(d) => {
            let s0 = start_of(&d);
            for b in 0u16..256 {
                let n = d.next_state(s0, b as u8);
                if !d.is_dead_state(n) && !d.is_quit_state(n) {
                    first.push(b.to_string());
                }
            }
            let empty_match = accepts_at_eoi(&d, s0) || d.is_match_state(s0);
            let capj: Vec<String> = caps
                .iter()
                .map(|(i, par, s)| format!("{{\"index\":{},\"parent\":{},\"pattern\":{}}}", i, par, jstr(s)))
                .collect();
            println!(
                "{{\"ok\":true,\"alternatives\":{},\"captures\":[{}],\"first_bytes\":[{}],\"matches_empty\":{}}}",
                alts,
                capj.join(","),
                first.join(","),
                empty_match
            );
        }
        Err(e) => println!("{{\"ok\":false,\"error\":{}}}", jstr(&e.to_string())),
    }
}

fn subset(a: &str, b: &str) {
    let da = match build(a) {
        Ok(d) => d,
        Err(e) => {
            println!("{{\"ok\":false,\"error\":{}}}", jstr(&e));
            return;
        }
    };
    let db = match build(b) {
        Ok(d) => d,
        Err(e) => {
            println!("{{\"ok\":false,\"error\":{}}}", jstr(&e));
            return;
        }
    };
    let sa = start_of(&da);
    let sb = start_of(&db);
    let mut seen: HashMap<(StateID, StateID), Option<((StateID, StateID), u8)>> = HashMap::new();
    let mut q = VecDeque::new();
    seen.insert((sa, sb), None);
    q.push_back((sa, sb));
    let mut pairs = 0u64;
    while let Some((x, y)) = q.pop_front() {
        pairs += 1;
        if accepts_at_eoi(&da, x) && !accepts_at_eoi(&db, y) {
            // rebuild witness
            let mut bytes = Vec::new();
            let mut cur = (x, y);
            while let Some(Some((prev, byte))) = seen.get(&cur) {
                bytes.push(*byte);
                cur = *prev;
            }
            bytes.reverse();
            println!(
                "{{\"ok\":true,\"subset\":false,\"witness\":{},\"pairs\":{}}}",
                jstr(&String::from_utf8_lossy(&bytes)),
                pairs
            );
            return;
        }
        for byte in 0u16..256 {
            let nx = da.next_state(x, byte as u8);
            if da.is_dead_state(nx) || da.is_quit_state(nx) {
                continue;
            }
            let ny = db.next_state(y, byte as u8);
            if !seen.contains_key(&(nx, ny)) {
                seen.insert((nx, ny), Some(((x, y), byte as u8)));
                q.push_back((nx, ny));
            }
        }
    }
    println!("{{\"ok\":true,\"subset\":true,\"pairs\":{}}}", pairs);
}

fn main() {
    let a: Vec<String> = std::env::args().collect();
    match a.get(1).map(|s| s.as_str()) {
        Some("analyze") if a.len() == 3 => analyze(&a[2]),
        Some("subset") if a.len() == 4 => subset(&a[2], &a[3]),
        _ => {
            eprintln!("usage: rxtool analyze <pat> | subset <A> <B>");
            std::process::exit(2);
        }
    }
}
